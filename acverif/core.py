"""Check driver: extraction cache, rule context, evidence writer, known-findings handling."""
import fcntl
import hashlib
import importlib
import json
import os
import shutil
import subprocess
import sys
import tempfile
import time

from .mir import Facts

VERIF = os.path.dirname(os.path.dirname(os.path.abspath(__file__)))
REPO = os.environ.get('ACVERIF_REPO', '/repo')
CACHE = os.path.join(VERIF, '.cache')
DRIVER_DIR = os.path.join(VERIF, 'driver')
DRIVER = os.path.join(DRIVER_DIR, 'target', 'release', 'acverif-driver')
KNOWN = os.path.join(VERIF, 'known_findings.txt')

CONFIGS = {
    'default': [],
    'nodefault': ['--no-default-features'],
    'std': ['--no-default-features', '--features', 'std'],
    'perf': ['--no-default-features', '--features', 'perf-literal'],
    'logging': ['--features', 'logging'],
}


def _complete(mod, insts=None):
    """The property's explanation, completed with what was decided by rules of its RULES list that its own text does not
    describe (rules shared with other properties): their statements are taken from this run's own instance verdicts."""
    import re as _re
    text = mod.EXPLANATION.strip()
    if not insts:
        return text
    add = []
    for rid, _ in mod.RULES:
        base = _re.sub(r'[a-z]$', '', rid)
        if rid in text or base in text or any(a_[0] == base for a_ in add):
            continue
        msgs = []
        seen = set()
        for _, i in insts:
            if i.rule != base or not i.ok or '/floor#' in i.key or 'anchor' in i.key:
                continue
            tag = _re.sub(r'[@:].*$', '', i.key.rsplit('#', 1)[-1])
            if tag in seen:
                continue
            seen.add(tag)
            d = _re.sub(r'\s+', ' ', i.detail).strip()
            msgs.append(d[:170])
        if msgs:
            add.append((base, msgs[:5]))
    if not add:
        return text
    return text + ' Also decided for this property (necessary conditions it shares with other properties): ' + ' '.join('%s: %s.' % (r, '; '.join(m)) for r, m in add)


class Missing(Exception):
    pass


def tree_hash(repo):
    h = hashlib.sha256()
    files = []
    for root, dirs, fs in os.walk(os.path.join(repo, 'src')):
        dirs.sort()
        for f in sorted(fs):
            files.append(os.path.join(root, f))
    for f in ('Cargo.toml', 'Cargo.lock'):
        p = os.path.join(repo, f)
        if os.path.exists(p):
            files.append(p)
    for p in files:
        h.update(os.path.relpath(p, repo).encode())
        h.update(b'\0')
        with open(p, 'rb') as fh:
            h.update(fh.read())
        h.update(b'\0')
    # the driver's own source is part of the key
    for f in ('src/main.rs', 'src/json.rs'):
        with open(os.path.join(DRIVER_DIR, f), 'rb') as fh:
            h.update(fh.read())
    return h.hexdigest()[:24]


def sysroot_lib():
    out = subprocess.run(['rustc', '+nightly', '--print', 'sysroot'], capture_output=True, text=True, check=True)
    return os.path.join(out.stdout.strip(), 'lib')


def ensure_driver():
    if os.path.exists(DRIVER):
        src_m = max(os.path.getmtime(os.path.join(DRIVER_DIR, 'src', f)) for f in ('main.rs', 'json.rs'))
        if os.path.getmtime(DRIVER) >= src_m:
            return
    env = dict(os.environ, CARGO_NET_OFFLINE='true')
    r = subprocess.run(['cargo', 'build', '--release', '--offline'], cwd=DRIVER_DIR, env=env, capture_output=True, text=True)
    if r.returncode != 0:
        sys.stderr.write(r.stderr)
        raise SystemExit('acverif: cannot build the fact extractor driver')


def extract(repo=None, config='default', debug_assertions=True):
    """Return path of the fact file for the current tree state of `repo` (extracting if needed)."""
    repo = repo or REPO
    os.makedirs(CACHE, exist_ok=True)
    ensure_driver()
    key = '%s-%s-%s-v3' % (tree_hash(repo), config, 'da' if debug_assertions else 'nda')
    out = os.path.join(CACHE, 'facts-%s.json' % key)
    lock = open(os.path.join(CACHE, 'lock-%s' % key), 'w')
    fcntl.flock(lock, fcntl.LOCK_EX)
    try:
        if os.path.exists(out) and os.path.getsize(out) > 0:
            return out
        tmp = tempfile.mkdtemp(prefix='acverif-')
        try:
            env = dict(os.environ)
            env['LD_LIBRARY_PATH'] = sysroot_lib() + ':' + env.get('LD_LIBRARY_PATH', '')
            flags = '-Zmir-opt-level=0 -Zub-checks=no -Awarnings'
            if not debug_assertions:
                flags += ' -Cdebug-assertions=off'
            env['RUSTFLAGS'] = flags
            env['RUSTC_WORKSPACE_WRAPPER'] = DRIVER
            env['ACVERIF_OUT'] = os.path.join(tmp, 'facts.json')
            env['ACVERIF_CRATE'] = 'aho_corasick'
            env['CARGO_TARGET_DIR'] = os.path.join(tmp, 'target')
            env['CARGO_NET_OFFLINE'] = 'true'
            cmd = ['cargo', '+nightly', 'check', '--offline', '--lib'] + CONFIGS[config]
            r = subprocess.run(cmd, cwd=repo, env=env, capture_output=True, text=True)
            if r.returncode != 0 or not os.path.exists(env['ACVERIF_OUT']):
                sys.stderr.write(r.stdout[-4000:])
                sys.stderr.write(r.stderr[-8000:])
                raise SystemExit('acverif: extraction failed for config %s (tree does not compile?)' % config)
            shutil.move(env['ACVERIF_OUT'], out)
        finally:
            shutil.rmtree(tmp, ignore_errors=True)
        # keep the cache small: drop fact files other than the 48 newest, and never one that was written in the last 30
        # minutes (a concurrent check of another tree may be about to load it)
        def _mt(f):
            try:
                return os.path.getmtime(os.path.join(CACHE, f))
            except OSError:
                return 0.0
        fs = sorted((f for f in os.listdir(CACHE) if f.startswith('facts-')), key=_mt)
        now = time.time()
        gone = set()
        for f in fs[:-48]:
            if now - _mt(f) < 1800:
                continue
            try:
                os.remove(os.path.join(CACHE, f))
                gone.add(f)
            except OSError:
                pass
        keep = {f[len('facts-'):-len('.json')] for f in fs if f not in gone} | {key}
        for f in os.listdir(CACHE):
            if f.startswith('lock-') and f[len('lock-'):] not in keep:
                try:
                    os.remove(os.path.join(CACHE, f))
                except OSError:
                    pass
        return out
    finally:
        fcntl.flock(lock, fcntl.LOCK_UN)
        lock.close()


def compile_control(src, crate='acverif_control'):
    """Compile a tiny positive-control source with the driver and return its Facts."""
    ensure_driver()
    tmp = tempfile.mkdtemp(prefix='acverif-ctl-')
    try:
        out = os.path.join(tmp, 'facts.json')
        env = dict(os.environ)
        env['LD_LIBRARY_PATH'] = sysroot_lib() + ':' + env.get('LD_LIBRARY_PATH', '')
        env['ACVERIF_OUT'] = out
        env['ACVERIF_CRATE'] = crate
        r = subprocess.run([DRIVER, 'rustc', src, '--crate-type', 'lib', '--crate-name', crate, '--edition=2021',
                            '--emit=metadata', '-Zmir-opt-level=0', '-Zub-checks=no', '-Awarnings', '--out-dir', tmp],
                           env=env, capture_output=True, text=True)
        if r.returncode != 0 or not os.path.exists(out):
            sys.stderr.write(r.stderr[-4000:])
            raise SystemExit('acverif: positive control failed to compile: %s' % src)
        return Facts(out)
    finally:
        shutil.rmtree(tmp, ignore_errors=True)


class Inst:
    __slots__ = ('rule', 'key', 'ok', 'detail', 'loc', 'info')

    def __init__(self, rule, key, ok, detail, loc, info=False):
        self.rule, self.key, self.ok, self.detail, self.loc, self.info = rule, key, ok, detail, loc, info


class Ctx:
    """Per-check rule context. Rules report instances; nothing is judged outside of them."""

    def __init__(self, prop, facts, tier, config='default'):
        self.prop = prop
        self.facts = facts
        self.tier = tier
        self.config = config
        self.insts = []
        self.bodies_seen = set()
        self.rule = None
        self.notes = []

    # anchors ------------------------------------------------------------
    def has(self, path):
        return self.facts.body(path) is not None

    def body(self, path, raw=False, extra=()):
        b = self.facts.body(path)
        if b is None:
            raise Missing('function %s not found' % path)
        self.bodies_seen.add(path)
        if raw:
            return b
        from .inline import inlined_body
        ib = inlined_body(self.facts, b, extra=extra)
        if ib is not b:
            self.note('helper functions not present on the reference tree were inlined into %s: %s' % (path, sorted(set(ib.j.get('inlined', [])))))
        return ib

    def find(self, pat, floor=1):
        r = self.facts.find(pat)
        if len(r) < floor:
            raise Missing('expected at least %d functions matching /%s/, found %d' % (floor, pat, len(r)))
        from .inline import inlined_body
        out = []
        for b in r:
            self.bodies_seen.add(b.path)
            out.append(inlined_body(self.facts, b))
        return out

    # reporting ----------------------------------------------------------
    def _key(self, rule, body, tag):
        where = body.path if hasattr(body, 'path') else str(body)
        return ('%s/%s/%s#%s' % (self.prop, rule, where, tag)).replace(' ', '_')

    def report(self, rule, body, tag, ok, detail, line=None):
        if hasattr(body, 'path'):
            self.bodies_seen.add(body.path)
            loc = '%s:%s' % (body.file, line if line is not None else body.line)
        else:
            loc = str(line) if line else ''
        self.insts.append(Inst(rule, self._key(rule, body, tag), bool(ok), detail, loc))
        return bool(ok)

    def ok(self, rule, body, tag, detail, line=None):
        return self.report(rule, body, tag, True, detail, line)

    def bad(self, rule, body, tag, detail, line=None):
        return self.report(rule, body, tag, False, detail, line)

    def floor(self, rule, what, count, floor, ceiling=None):
        ok = count >= floor and (ceiling is None or count <= ceiling)
        exp = '>= %d' % floor if ceiling is None else ('== %d' % floor if ceiling == floor else 'in [%d,%d]' % (floor, ceiling))
        self.insts.append(Inst(rule, ('%s/%s/floor#%s' % (self.prop, rule, what)).replace(' ', '_'), ok,
                               'instance count of "%s" is %d, expected %s' % (what, count, exp), ''))
        return ok

    def note(self, text):
        self.notes.append(text)


def load_known():
    known, fixed = {}, []
    if os.path.exists(KNOWN):
        for line in open(KNOWN):
            line = line.strip()
            if not line or line.startswith('#'):
                continue
            if line.startswith('known:'):
                parts = line[len('known:'):].split(None, 2)
                d = dict(p.split('=', 1) for p in parts[:2])
                known[d['key']] = (d['property'], parts[2] if len(parts) > 2 else '')
            elif line.startswith('fixed:'):
                fixed.append(line)
    return known, fixed


def run_rules(prop, facts, tier, config='default'):
    mod = importlib.import_module('rules.' + prop)
    cx = Ctx(prop, facts, tier, config)
    for name, fn in mod.RULES:
        if config not in getattr(fn, 'configs', ('default', 'logging', 'std', 'perf', 'nodefault')):
            continue
        cx.rule = name
        n0 = len(cx.insts)
        try:
            fn(cx)
        except Missing as e:
            cx.insts.append(Inst(name, ('%s/%s/anchor-missing#%s' % (prop, name, str(e))).replace(' ', '_'), False,
                                 'anchor missing: %s (fail closed)' % e, ''))
        except Exception as e:  # a rule that cannot cope with the shape of the code fails closed, with a diagnosable message
            import traceback
            tb = traceback.extract_tb(e.__traceback__)[-1]
            cx.insts.append(Inst(name, '%s/%s/rule-error' % (prop, name), False,
                                 'rule could not analyse the current shape of the code (%s: %s at %s:%d); fail closed' % (type(e).__name__, e, os.path.basename(tb.filename), tb.lineno), ''))
        if len(cx.insts) == n0:
            cx.insts.append(Inst(name, '%s/%s/vacuous' % (prop, name), False, 'rule produced no instance (fail closed)', ''))
    return cx, mod


def self_test(prop, repo):
    """Thorough tier: apply every catalogued seeded variant / mutant that this property's rule set is expected to report
    to a scratch copy of the tree under test and confirm that the check still reports it. A miss is a checker weakness,
    recorded in the evidence; it is not a violation of the property."""
    from concurrent.futures import ThreadPoolExecutor
    cat_path = os.path.join(VERIF, 'mutants', 'CATALOG.json')
    if not os.path.exists(cat_path):
        return {}
    cat = json.load(open(cat_path))
    mine = sorted(k for k, v in cat.items() if prop in v)

    def one(rel):
        patch = os.path.join(VERIF, rel)
        tmp = tempfile.mkdtemp(prefix='acverif-self-')
        try:
            for f in ('Cargo.toml', 'Cargo.lock', 'README.md'):
                if os.path.exists(os.path.join(repo, f)):
                    shutil.copy(os.path.join(repo, f), tmp)
            shutil.copytree(os.path.join(repo, 'src'), os.path.join(tmp, 'src'))
            r = subprocess.run(['patch', '-p1', '-s', '-f', '-d', tmp, '-i', patch], capture_output=True, text=True)
            if r.returncode != 0:
                return rel, 'skipped (patch does not apply to this tree)'
            r = subprocess.run([os.path.join(VERIF, 'check'), prop, '--repo', tmp, '--no-evidence', '--tier', 'quick'], capture_output=True, text=True)
            if r.returncode == 1:
                keys = [l.split()[1] for l in r.stdout.splitlines() if l.startswith('violation: ')]
                return rel, 'reported: ' + ', '.join(k.split('/', 1)[1] for k in keys[:3])
            if r.returncode == 0:
                return rel, 'MISSED'
            return rel, 'skipped (variant does not compile on this tree)'
        finally:
            shutil.rmtree(tmp, ignore_errors=True)
    with ThreadPoolExecutor(max_workers=8) as ex:
        res = list(ex.map(one, mine))
    rep = [r for r in res if r[1].startswith('reported')]
    miss = [r for r in res if r[1] == 'MISSED']
    skip = [r for r in res if r[1].startswith('skipped')]
    for rel, what in miss:
        print('self-test: catalogued variant %s is NOT reported any more (checker weakness, not a property violation)' % rel)
    return {'self_test': {'variants_tried': len(res), 'reported': len(rep), 'missed': [r[0] for r in miss], 'skipped': [r[0] for r in skip],
                          'detail': {k: v for k, v in res}}}


def only(configs):
    def deco(fn):
        fn.configs = configs
        return fn
    return deco


def main(argv):
    import argparse
    ap = argparse.ArgumentParser()
    ap.add_argument('prop')
    ap.add_argument('--tier', default=os.environ.get('VERIF_TIER', 'quick'))
    ap.add_argument('--replay')
    ap.add_argument('--repo', default=None)
    ap.add_argument('--no-evidence', action='store_true')
    ap.add_argument('-v', '--verbose', action='store_true')
    a = ap.parse_args(argv)
    t0 = time.time()
    prop = a.prop
    tier = a.tier if a.tier in ('quick', 'thorough') else 'quick'
    seed = int(os.environ.get('VERIF_SEED', '0') or 0)
    sys.path.insert(0, VERIF)
    repo = a.repo or REPO
    only_key = None
    if a.replay:
        rp = json.load(open(a.replay))
        only_key = rp['key']
    mod = importlib.import_module('rules.' + prop)
    configs = ['default'] if tier == 'quick' else list(getattr(mod, 'THOROUGH_CONFIGS', ['default', 'std', 'perf', 'nodefault', 'logging']))
    all_insts = []
    per_config = {}
    bodies = set()
    notes = []
    nbodies_total = 0
    hashes = {}
    for cfg in configs:
        facts = None
        for attempt in (1, 2, 3):
            fp = extract(repo, cfg)
            try:
                facts = Facts(fp)
                break
            except (FileNotFoundError, json.JSONDecodeError):
                # the cached fact file vanished or is incomplete (cache shared with concurrent checks of other trees): extract again
                try:
                    os.remove(fp)
                except OSError:
                    pass
        if facts is None:
            raise SystemExit('acverif: fact file could not be loaded after three extractions')
        hashes[cfg] = os.path.basename(fp)
        nbodies_total += len(facts.bodies)
        cx, mod = run_rules(prop, facts, tier, cfg)
        per_config[cfg] = len(cx.insts)
        bodies |= cx.bodies_seen
        for n in cx.notes:
            if n not in notes:
                notes.append(n)
        for i in cx.insts:
            all_insts.append((cfg, i))
    extra = {}
    if tier == 'thorough' and not a.replay:
        extra = self_test(prop, repo)
    known, fixed = load_known()
    # de-duplicate violations across configs by key
    viol = {}
    knownhit = {}
    for cfg, i in all_insts:
        if only_key and i.key != only_key:
            continue
        if not i.ok:
            if i.key in known and known[i.key][0] == prop:
                knownhit.setdefault(i.key, (cfg, i))
            else:
                viol.setdefault(i.key, (cfg, i))
    if a.verbose or a.replay:
        for cfg, i in all_insts:
            if only_key and i.key != only_key:
                continue
            print('%s [%s] %s %s :: %s' % ('ok  ' if i.ok else 'FAIL', cfg, i.key, i.loc, i.detail))
    for key, (cfg, i) in knownhit.items():
        print('KNOWN-FINDING: property=%s %s %s — %s' % (prop, key, i.loc, known[key][1] or i.detail))
    rc = 0
    if viol:
        rc = 1
        rdir = os.path.join(VERIF, 'evidence', 'replay')
        os.makedirs(rdir, exist_ok=True)
        for n, (key, (cfg, i)) in enumerate(sorted(viol.items())):
            rp = os.path.join(rdir, '%s-%d.json' % (prop, n))
            with open(rp, 'w') as fh:
                json.dump({'property': prop, 'rule': i.rule, 'key': key, 'config': cfg, 'loc': i.loc, 'detail': i.detail,
                           'replay_cmd': './check %s --replay %s' % (prop, rp)}, fh, indent=1)
            print('violation: %s at %s [%s]: %s' % (key, i.loc, cfg, i.detail))
            print('VIOLATION property=%s replay=%s' % (prop, rp))
    if a.no_evidence or a.replay:
        return rc
    # evidence ---------------------------------------------------------------
    total = len(all_insts)
    good = sum(1 for _, i in all_insts if i.ok)
    distinct = len({i.key for _, i in all_insts if i.ok and '/floor#' not in i.key})
    samples = []
    seen_rules = set()
    for cfg, i in all_insts:
        if i.rule in seen_rules and i.ok:
            continue
        seen_rules.add(i.rule)
        samples.append({'rule': i.rule, 'key': i.key, 'loc': i.loc, 'config': cfg, 'verdict': 'ok' if i.ok else 'violated', 'what': i.detail[:600]})
    for key, (cfg, i) in list(viol.items()) + list(knownhit.items()):
        samples.append({'rule': i.rule, 'key': key, 'loc': i.loc, 'config': cfg, 'verdict': 'known-finding' if key in knownhit else 'violated', 'what': i.detail[:600]})
    level = getattr(mod, 'LEVEL', 'other')
    cov = {
        'explanation': _complete(mod, all_insts),
        'rule': 'one case = one rule instance (a call site, store, branch edge, function or type obligation found in the MIR/type facts of /repo) '
                'evaluated by a dominance / graph-cut / term-shape / inventory rule; distinct = distinct instance keys with verdict ok; '
                'floors and anchor checks are counted in evaluations but not in distinct_nontrivial',
        'evaluations': total,
        'distinct_nontrivial': distinct,
        'obligations': total,
        'discharged': good + len([1 for _, i in all_insts if not i.ok and i.key in knownhit]),
        'samples': samples[:60],
        'checker_cmd': './check %s --tier %s' % (prop, tier),
        'trusted_base': list(getattr(mod, 'TRUSTED', [])) + [
            'rustc nightly type checking, borrow checking and MIR construction (mir-opt-level=0)',
            'acverif-driver serialises MIR faithfully',
        ],
        'rules': sorted({i.rule for _, i in all_insts}),
        'not_decided': getattr(mod, 'NOT_DECIDED', '').strip(),
        'functions_analysed': sorted(bodies),
        'bodies_in_fact_base': nbodies_total,
        'configurations': configs,
        'instances_per_configuration': per_config,
        'fact_files': hashes,
        'known_findings_reported': sorted(knownhit),
        'notes': notes,
        'exhaustive': False,
    }
    cov.update(extra)
    ev = {
        'property_id': prop,
        'tier': tier,
        'seed': seed,
        'level': level,
        'coverage': cov,
        'assumptions': list(getattr(mod, 'ASSUMPTIONS', [])) + [
            'static analysis of the source only: no aho-corasick code is executed; the verdict covers the decided clauses listed in coverage.explanation, not the input-quantified behaviour listed in coverage.not_decided',
            'cfg(target_arch = "aarch64") code is not compiled in this sandbox and is outside every claim',
        ],
        'wall_s': round(time.time() - t0, 3),
        'violations': len(viol),
    }
    os.makedirs(os.path.join(VERIF, 'evidence'), exist_ok=True)
    with open(os.path.join(VERIF, 'evidence', '%s.json' % prop), 'w') as fh:
        json.dump(ev, fh, indent=1)
    print('%s: %d rule instances, %d ok, %d known findings, %d violations (%s tier, %.1fs)' % (
        prop, total, good, len(knownhit), len(viol), tier, time.time() - t0))
    return rc
